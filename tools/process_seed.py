#!/usr/bin/env python3
"""Verify a seeded regression produced by an independent agent and run the
property's check against it.  Usage: process_seed.py Cxx <seed-dir> <seed-id> [--tier quick]
 1. scratch worktree of /repo HEAD; demo.py must pass there
 2. apply patch.diff; the 815 baseline tests must still pass; demo.py must fail
 3. ./check Cxx against the changed worktree: CAUGHT (exit 1 + VIOLATION) or MISSED
 4. copy patch.diff, demo.py, meta.json (+ our verification record) to /verif/seeded/<seed-id>/
"""
import json
import os
import shutil
import subprocess
import sys
import tempfile
import time

prop, sdir, sid = sys.argv[1], sys.argv[2], sys.argv[3]
tier = sys.argv[sys.argv.index('--tier') + 1] if '--tier' in sys.argv else 'quick'
VERIF = '/verif'
wt = tempfile.mkdtemp(prefix=f'seedwt-{sid}-', dir='/tmp')
out = tempfile.mkdtemp(prefix=f'seedout-{sid}-', dir='/tmp')
os.rmdir(wt)
rec = {'seed': sid, 'property': prop, 'checked_at_repo_head': subprocess.check_output(['git', '-C', '/repo', 'rev-parse', '--short', 'HEAD'], text=True).strip()}
try:
    subprocess.run(['git', '-C', '/repo', 'worktree', 'add', '--detach', '-q', wt, 'HEAD'], check=True)
    demo = os.path.join(sdir, 'demo.py')
    patch = os.path.join(sdir, 'patch.diff')
    env = dict(os.environ, PYTHONPATH=wt)
    r0 = subprocess.run(['/venv/bin/python', demo], cwd=wt, env=env, stdout=subprocess.PIPE, stderr=subprocess.STDOUT, text=True, timeout=900)
    rec['demo_unchanged_rc'] = r0.returncode
    a = subprocess.run(['git', '-C', wt, 'apply', patch])
    rec['applies'] = a.returncode == 0
    if a.returncode == 0:
        r1 = subprocess.run(['/venv/bin/python', demo], cwd=wt, env=env, stdout=subprocess.PIPE, stderr=subprocess.STDOUT, text=True, timeout=900)
        rec['demo_changed_rc'] = r1.returncode
        rec['demo_changed_tail'] = r1.stdout[-400:]
        b = subprocess.run([os.path.join(VERIF, 'tools', 'run_baseline.py'), wt], stdout=subprocess.PIPE, text=True)
        rec['baseline_ok'] = b.returncode == 0
        rec['baseline'] = b.stdout.strip().splitlines()[0] if b.stdout else ''
        t = time.time()
        p = subprocess.run([os.path.join(VERIF, 'check'), prop, '--tier', tier], env=dict(os.environ, XLCALC_REPO=wt, VERIF_OUT=out),
                           stdout=subprocess.PIPE, stderr=subprocess.STDOUT, text=True)
        viol = [l for l in p.stdout.splitlines() if l.startswith('VIOLATION')]
        rec['check_rc'] = p.returncode
        rec['check_wall_s'] = round(time.time() - t)
        rec['violation_groups'] = len(viol)
        rec['verdict'] = 'CAUGHT' if p.returncode == 1 and viol else ('MACHINERY' if p.returncode == 2 else 'MISSED')
        rec['first_violation'] = '\n'.join(p.stdout.splitlines()[[i for i, l in enumerate(p.stdout.splitlines()) if l.startswith('VIOLATION')][0]:][:3])[:900] if viol else p.stdout[-600:]
    valid = rec.get('applies') and rec.get('demo_unchanged_rc') == 0 and rec.get('demo_changed_rc', 0) != 0 and rec.get('baseline_ok')
    rec['valid_seed'] = bool(valid)
    dest = os.path.join(VERIF, 'seeded', sid)
    os.makedirs(dest, exist_ok=True)
    for f in ('patch.diff', 'demo.py'):
        shutil.copy(os.path.join(sdir, f), os.path.join(dest, f))
    meta = {}
    try:
        meta = json.load(open(os.path.join(sdir, 'meta.json')))
    except Exception:
        pass
    meta['verification'] = rec
    json.dump(meta, open(os.path.join(dest, 'meta.json'), 'w'), indent=1)
    print(f"{sid}: valid={rec['valid_seed']} verdict={rec.get('verdict')} groups={rec.get('violation_groups')} demo(unchanged/changed)={rec.get('demo_unchanged_rc')}/{rec.get('demo_changed_rc')} baseline_ok={rec.get('baseline_ok')}")
finally:
    subprocess.run(['git', '-C', '/repo', 'worktree', 'remove', '--force', wt], stdout=subprocess.DEVNULL, stderr=subprocess.DEVNULL)
    shutil.rmtree(out, ignore_errors=True)

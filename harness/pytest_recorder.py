"""pytest plugin (loaded with `-p harness.pytest_recorder`, PYTHONPATH=/verif):
while the repository's own, unedited test-suite runs, every call of a registered
function (xl.FUNCTIONS entries, also when the tests call the module attribute
directly) is recorded at its return - name, projected arguments, projected
result - into $VERIF_REC_FILE as ndjson.  The events are validated afterwards
against the specification (Trace_Library): the 815 tests become drivers with
the specification's assertions instead of their own.

Only public names are wrapped; wrappers are transparent (functools.wraps keeps
signature / annotations that FunctionNode.eval inspects)."""
import functools
import json
import os
import sys

_out = None
_depth = 0
_count = 0
MAX_EVENTS = int(os.environ.get('VERIF_REC_MAX', '200000'))


def _emit(ev):
    global _count
    if _out is not None and _count < MAX_EVENTS:
        _out.write(json.dumps(ev, separators=(',', ':')) + '\n')
        _count += 1


def _small(a, depth=0):
    """is the abstract value safe for TLC's JSON reader (ints < 2^31, no exotic kinds)"""
    t = a.get('t')
    if t == 'num':
        return abs(a['n']) < 2 ** 31 and a['d'] < 2 ** 31
    if t in ('txt',):
        return len(a['v']) <= 400
    if t in ('bool', 'blank', 'err'):
        return True
    if t == 'date':
        return 0 <= a['s'] < 2 ** 31 and a['fd'] < 2 ** 31
    if t == 'arr':
        return depth == 0 and len(a['v']) <= 60 and all(len(r) <= 30 and all(_small(x, 1) for x in r) for r in a['v'])
    return False


def _wrap(name, fn, xlmod):
    @functools.wraps(fn)
    def wrapper(*args, **kw):
        global _depth
        _depth += 1
        try:
            res = fn(*args, **kw)
        except BaseException as e:
            _depth -= 1
            if _depth == 0 and not kw:
                _record(name, args, e, xlmod)
            raise
        _depth -= 1
        if _depth == 0 and not kw:
            _record(name, args, res, xlmod)
        return res
    wrapper.__verif_wrapped__ = True
    return wrapper


def _record(name, args, res, xlmod):
    try:
        if len(args) > 40:
            return
        aargs = [xlmod.to_abs(a) for a in args]
        if not all(_small(a) for a in aargs):
            return
        ares = xlmod.to_abs(res)
        if ares.get('t') not in ('exc',) and not _small(ares):
            ares = {'t': 'other'}
        if ares.get('t') == 'exc':
            ares = {'t': 'exc', 'cls': ares['cls']}
        _emit({'f': name, 'args': aargs, 'res': ares, 'test': os.environ.get('PYTEST_CURRENT_TEST', '')[:120]})
    except Exception:
        pass


def pytest_configure(config):
    global _out
    path = os.environ.get('VERIF_REC_FILE')
    if not path:
        return
    worker = os.environ.get('PYTEST_XDIST_WORKER', 'main')
    _out = open(f'{path}.{worker}', 'w')
    sys.path.insert(0, os.environ.get('VERIF_DIR', '/verif'))
    from harness import xl as xlmod
    L = xlmod.lib()
    import importlib
    mods = [importlib.import_module('xlcalculator.xlfunctions.' + m) for m in
            ('date', 'engineering', 'financial', 'information', 'logical', 'lookup', 'math', 'operator', 'statistics', 'text')]
    an = L.ast_nodes
    for name, fn in list(L.xl.FUNCTIONS.items()):
        if getattr(fn, '__verif_wrapped__', False) or name in ('NOW', 'TODAY', 'RAND', 'RANDBETWEEN', 'IF', 'AND', 'OR', 'NOT'):
            continue
        w = _wrap(name, fn, xlmod)
        L.xl.FUNCTIONS[name] = w
        for m in mods:
            if getattr(m, name, None) is fn:
                setattr(m, name, w)
        for table in (an.PREFIX_OP_TO_FUNC, an.POSTFIX_OP_TO_FUNC, an.INFIX_OP_TO_FUNC):
            for k, v in list(table.items()):
                if v is fn:
                    table[k] = w


    # every Evaluator.evaluate() of the suite (nested ones included) as a local-consistency event (harness/evalrec.py)
    global _evalrec, _evalout
    if os.environ.get('VERIF_REC_EVAL'):
        from harness import evalrec
        _evalout = open(f'{path}.eval.{worker}', 'w')

        def sink(e):
            e['test'] = os.environ.get('PYTEST_CURRENT_TEST', '')[:120]
            _evalout.write(json.dumps(e, separators=(',', ':')) + '\n')
        _evalrec = evalrec.LocalRecorder(sink=sink, limit=MAX_EVENTS)
        _evalrec.__enter__()


_evalrec = None
_evalout = None


def pytest_unconfigure(config):
    if _out is not None:
        _out.close()
    if _evalrec is not None:
        _evalrec.__exit__(None, None, None)
        _evalout.close()

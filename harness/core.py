"""Run context shared by all checks: TLC runner, work directory, disagreement
triage against the known-findings file, evidence writer, exit codes.

exit 0  property held on everything explored (KNOWN-FINDING lines allowed)
exit 1  un-listed violation(s): "VIOLATION property=<id> replay=<path>"
exit 2  machinery failure (TLC error, parse failure, vacuity, ...)
"""
import hashlib
import json
import os
import re
import shutil
import subprocess
import sys
import time

from .xl import MachineryError, REPO

VERIF = os.path.dirname(os.path.dirname(os.path.abspath(__file__)))
OUT = os.environ.get('VERIF_OUT', VERIF)      # evidence/ and replay/ go here (scratch dir for mutant runs)
SPEC = os.path.join(VERIF, 'spec')
TLC_CP = '/opt/veriftools/tla/tla2tools.jar:/opt/veriftools/tla/CommunityModules-deps.jar'

_RE_STATES = re.compile(r'(\d+) states generated, (\d+) distinct states found')
_RE_INIT = re.compile(r'Finished computing initial states: (\d+) distinct state')
_RE_DEPTH = re.compile(r'depth of the complete state graph search is (\d+)')


class TlcResult:
    def __init__(self):
        self.generated = self.distinct = self.init = self.depth = 0
        self.rc = None
        self.out = ''
        self.dump = None
        self.wall = 0.0
        self.violated = None


class Run:
    def __init__(self, prop, tier, seed, bug_models=None):
        self.prop = prop
        self.tier = tier
        self.seed = seed
        self.t0 = time.time()
        self.work = os.path.join(VERIF, '.work', f'{prop}-{os.getpid()}')
        shutil.rmtree(self.work, ignore_errors=True)
        os.makedirs(self.work)
        shutil.rmtree(os.path.join(OUT, 'replay', prop), ignore_errors=True)
        self.states = 0
        self.transitions = 0
        self.tlc_runs = []
        self.evaluations = 0
        self.traces = 0
        self.undetermined = 0
        self.nontrivial = set()
        self.nontrivial_count = 0
        self.disagreements = []
        self.samples = []
        self.laws = {}
        self.notes = {}
        self.exhaustive = False
        self.assumptions = []
        self.rule = ''
        self.bug_models = bug_models or {}
        self.machinery = []

    # ------------------------------------------------------------------ TLC
    def tlc(self, module, cfg, dump=False, workers=16, timeout=600, env=None,
            expect_violation=False, simulate=None, extra=(), name=None, coverage=False, heap=None):
        """Run TLC on spec/<module>.tla with spec/cfg/<cfg>.  Returns TlcResult."""
        name = name or cfg.replace('.cfg', '')
        meta = os.path.join(self.work, 'meta-' + name)
        res = TlcResult()
        cmd = ['timeout', str(timeout), 'java', '-XX:+UseParallelGC', '-Xmx' + (heap or os.environ.get('VERIF_TLC_HEAP', '6g')), '-Xss32m', '-Dfile.encoding=UTF-8', '-cp', TLC_CP,
               'tlc2.TLC', '-workers', str(workers), '-metadir', meta, '-noGenerateSpecTE',
               '-config', os.path.join('cfg', cfg)]
        if coverage:
            cmd += ['-coverage', '1']
        if dump:
            res.dump = os.path.join(self.work, 'dump-' + name)
            cmd += ['-dump', res.dump]
            res.dump += '.dump'
        if simulate:
            cmd += ['-simulate', simulate]
        cmd += list(extra) + [module + '.tla']
        e = dict(os.environ)
        if env:
            e.update(env)
        t = time.time()
        p = subprocess.run(cmd, cwd=SPEC, env=e, stdout=subprocess.PIPE, stderr=subprocess.STDOUT, text=True)
        res.wall = time.time() - t
        res.rc = p.returncode
        res.out = p.stdout
        shutil.rmtree(meta, ignore_errors=True)
        m = _RE_STATES.findall(p.stdout)
        if m:
            res.generated, res.distinct = map(int, m[-1])
        m = _RE_INIT.search(p.stdout)
        if m:
            res.init = int(m.group(1))
        m = _RE_DEPTH.search(p.stdout)
        if m:
            res.depth = int(m.group(1))
        m = re.search(r'Invariant (\w+) is violated|property (\w+) (?:is|was) violated|Temporal properties were violated', p.stdout)
        if m:
            res.violated = m.group(1) or m.group(2) or 'temporal'
        self.tlc_runs.append({'module': module, 'cfg': cfg, 'rc': res.rc, 'generated': res.generated,
                              'distinct': res.distinct, 'wall_s': round(res.wall, 1),
                              'violated': res.violated})
        if expect_violation:
            return res
        if p.returncode == 124:
            raise MachineryError(f'TLC timeout on {module}/{cfg} after {timeout}s')
        if p.returncode != 0 or 'No error has been found' not in p.stdout and not simulate:
            tail = '\n'.join(p.stdout.splitlines()[-40:])
            raise MachineryError(f'TLC failed on {module}/{cfg} (rc={p.returncode}, violated={res.violated}):\n{tail}')
        for ln in open(os.path.join(SPEC, 'cfg', cfg)):
            m2 = re.match(r'\s*(INVARIANT|PROPERTY)\s+(\w+)', ln)
            if m2:
                self.laws[f'{module}.{m2.group(2)}'] = 'holds'
        self.states += res.distinct
        self.transitions += max(res.generated - res.init, 0)
        return res

    # ------------------------------------------------------------ Apalache
    def apalache(self, module, cinit, init, inv, length, timeout=900, expect_violation=False, name=None):
        """apalache-mc check on spec/<module>.tla (symbolic bounded check; used for inductive invariants)."""
        name = name or f'apa-{module}-{cinit}-{init}-{length}'
        out = os.path.join(self.work, name)
        cmd = ['timeout', str(timeout), 'apalache-mc', 'check', f'--cinit={cinit}', f'--init={init}', f'--inv={inv}',
               f'--length={length}', f'--out-dir={out}', '--run-dir=' + os.path.join(out, 'run'), module + '.tla']
        t = time.time()
        p = subprocess.run(cmd, cwd=SPEC, stdout=subprocess.PIPE, stderr=subprocess.STDOUT, text=True)
        wall = time.time() - t
        shutil.rmtree(out, ignore_errors=True)
        ok = 'EXITCODE: OK' in p.stdout and 'The outcome is: NoError' in p.stdout
        bad = 'The outcome is: Error' in p.stdout or 'violat' in p.stdout.lower()
        self.tlc_runs.append({'module': module, 'engine': 'apalache 0.58', 'cinit': cinit, 'init': init, 'inv': inv, 'length': length,
                              'rc': p.returncode, 'wall_s': round(wall, 1), 'outcome': 'NoError' if ok else ('Error' if bad else 'failed')})
        if expect_violation:
            if not bad or ok:
                raise MachineryError(f'Apalache did not reject {module} {cinit}/{init}/{inv}:\n' + '\n'.join(p.stdout.splitlines()[-25:]))
            return False
        if not ok:
            raise MachineryError(f'Apalache failed on {module} {cinit}/{init}/{inv} (rc={p.returncode}):\n' + '\n'.join(p.stdout.splitlines()[-25:]))
        self.laws[f'{module}.{inv} [{init}, length {length}] (Apalache)'] = 'holds'
        return True

    # ------------------------------------------------------- disagreements
    def disagree(self, kind, case, expected, observed, features=None, clause=None, repro=None):
        self.disagreements.append({'kind': kind, 'case': case, 'expected': expected, 'observed': observed,
                                   'features': features or {}, 'clause': clause, 'repro': repro})

    def sample(self, obj):
        if len(self.samples) < 6:
            self.samples.append(obj)

    def count_case(self, case, nontrivial=True):
        self.evaluations += 1
        if nontrivial:
            self.nontrivial.add(hashlib.md5(json.dumps(case, sort_keys=True).encode()).digest()[:8])

    # -------------------------------------------------------------- finish
    def finish(self):
        findings = load_findings(self.prop)
        open_f = [f for f in findings if f.get('status') == 'open']
        seen = {}
        unlisted = []
        for d in self.disagreements:
            hit = None
            for f in open_f:
                model = self.bug_models.get(f.get('model'))
                if model is None:
                    continue
                try:
                    if model(d):
                        hit = f
                        break
                except Exception:
                    continue
            if hit is None:
                unlisted.append(d)
            else:
                seen[hit['id']] = seen.get(hit['id'], 0) + 1
        for f in open_f:
            print(f"KNOWN-FINDING: property={self.prop} {f['id']} {f['what']} (seen {seen.get(f['id'], 0)}x this run)")
        rc = 0
        replay_paths = []
        if unlisted:
            rc = 1
            rdir = os.path.join(OUT, 'replay', self.prop)
            os.makedirs(rdir, exist_ok=True)
            groups = {}
            for d in unlisted:
                key = json.dumps([d['kind'], d['clause'], d['features']], sort_keys=True)
                groups.setdefault(key, []).append(d)
            cap = int(os.environ.get('VERIF_MAX_GROUPS', '25'))
            for key, ds in list(groups.items())[:cap]:
                d = ds[0]
                h = hashlib.md5(json.dumps(d, sort_keys=True, default=str).encode()).hexdigest()[:12]
                path = os.path.join(rdir, h + '.json')
                with open(path, 'w') as fh:
                    json.dump({'property': self.prop, 'count_in_group': len(ds), **d}, fh, indent=1, default=str)
                replay_paths.append(path)
                print(f'VIOLATION property={self.prop} replay={path}')
                print(f"  [{len(ds)}x] {d['kind']} clause={d['clause']} case={json.dumps(d['case'], default=str)[:300]}")
                print(f"        expected={json.dumps(d['expected'], default=str)[:200]} observed={json.dumps(d['observed'], default=str)[:200]}")
            if len(groups) > cap:
                print(f'  ... and {len(groups) - cap} more groups')
        self.write_evidence(len(unlisted), seen)
        shutil.rmtree(self.work, ignore_errors=True)
        return rc

    def write_evidence(self, violations, seen):
        ev = {
            'property_id': self.prop,
            'tier': self.tier,
            'seed': self.seed,
            'level': 'model_checking',
            'coverage': {
                'states': self.states,
                'transitions': self.transitions,
                'traces_validated_against_impl': self.traces,
                'evaluations': self.evaluations,
                'distinct_nontrivial': len(self.nontrivial) + self.nontrivial_count,
                'undetermined': self.undetermined,
                'rule': self.rule,
                'samples': self.samples or [{'note': 'no case sampled'}],
                'exhaustive': self.exhaustive,
                'tlc_runs': self.tlc_runs,
                'laws_checked_on_spec': self.laws,
                'checker_cmd': f'./check {self.prop} --tier {self.tier}',
                'trusted_base': ['TLC 1.8.0 (tla2tools.jar) + CommunityModules Json/IOUtils',
                                 'harness/tlaval.py (dump parser)', 'harness/xl.py (projection)',
                                 'harness/agree.py'],
                **self.notes,
            },
            'assumptions': self.assumptions,
            'wall_s': round(time.time() - self.t0, 2),
            'violations': violations,
            'known_findings_seen': seen,
            'repo': REPO,
        }
        os.makedirs(os.path.join(OUT, 'evidence'), exist_ok=True)
        with open(os.path.join(OUT, 'evidence', f'{self.prop}.json'), 'w') as fh:
            json.dump(ev, fh, indent=1, default=str)


def load_findings(prop):
    out = []
    fdir = os.path.join(VERIF, 'findings')
    for name in sorted(os.listdir(fdir)):
        if name.endswith('.json'):
            with open(os.path.join(fdir, name)) as fh:
                data = json.load(fh)
            out += [f for f in data.get('findings', []) if f.get('property') == prop]
    return out

"""Minimal .xlsx writer for property C11 (spec -> code): the bytes are produced
here with the standard library only (zipfile + literal SpreadsheetML), so that
every cell storage form of the file format can be emitted - openpyxl's writer
cannot emit most of them (t="str" / "inlineStr" / "e" / "d", formulas with a
chosen cached value or none, shared-formula masters and members).

    write_xlsx(path, {'sheets': [{'name': 'S1', 'cells': [cell, ...]}, ...],
                      'names':  [{'name': 'N', 'ref': "S1!$A$1"}, ...]})

A cell is a dict with
    ref   'B2'
    t     None | 'n' | 's' | 'str' | 'inlineStr' | 'b' | 'e' | 'd'     (attribute t of <c>)
    v     text of <v> (None: no <v>); for t = 's' the STRING itself - the index into
          sharedStrings.xml is assigned here; for t = 'inlineStr' the string of <is><t>
    s     style index (0 general, 1 = built-in date format 14, 2 = 0.00)   (attribute s of <c>)
    f     formula text without the leading '=' (None: no <f>; '' : empty <f/>)
    ft    None | 'shared'        fref: the ref attribute of a shared master; si: group index
Cells are written in row-major order unless the sheet dict has 'order': 'given'.
"""
import re
import zipfile
from xml.sax.saxutils import escape, quoteattr

NS_MAIN = 'http://schemas.openxmlformats.org/spreadsheetml/2006/main'
NS_REL = 'http://schemas.openxmlformats.org/officeDocument/2006/relationships'
NS_PKG = 'http://schemas.openxmlformats.org/package/2006/relationships'
HEAD = '<?xml version="1.0" encoding="UTF-8" standalone="yes"?>\n'

STYLE_GENERAL, STYLE_DATE, STYLE_FIXED2 = 0, 1, 2

_STYLES = (HEAD + f'<styleSheet xmlns="{NS_MAIN}">'
           '<fonts count="1"><font><sz val="11"/><name val="Calibri"/></font></fonts>'
           '<fills count="2"><fill><patternFill patternType="none"/></fill>'
           '<fill><patternFill patternType="gray125"/></fill></fills>'
           '<borders count="1"><border><left/><right/><top/><bottom/><diagonal/></border></borders>'
           '<cellStyleXfs count="1"><xf numFmtId="0" fontId="0" fillId="0" borderId="0"/></cellStyleXfs>'
           '<cellXfs count="3">'
           '<xf numFmtId="0" fontId="0" fillId="0" borderId="0" xfId="0"/>'
           '<xf numFmtId="14" fontId="0" fillId="0" borderId="0" xfId="0" applyNumberFormat="1"/>'
           '<xf numFmtId="2" fontId="0" fillId="0" borderId="0" xfId="0" applyNumberFormat="1"/>'
           '</cellXfs>'
           '<cellStyles count="1"><cellStyle name="Normal" xfId="0" builtinId="0"/></cellStyles>'
           '</styleSheet>')

_COORD = re.compile(r'^([A-Z]+)(\d+)$')


def col_index(letters):
    n = 0
    for ch in letters:
        n = n * 26 + ord(ch) - 64
    return n


def col_letters(n):
    s = ''
    while n:
        n, r = divmod(n - 1, 26)
        s = chr(65 + r) + s
    return s


def _rowcol(ref):
    m = _COORD.match(ref)
    return int(m.group(2)), col_index(m.group(1))


def _text_el(tag, s):
    sp = ' xml:space="preserve"' if s != s.strip() or '\n' in s else ''
    return f'<{tag}{sp}>{escape(s)}</{tag}>'


def _cell_xml(c, sst):
    attrs = f' r="{c["ref"]}"'
    if c.get('s'):
        attrs += f' s="{int(c["s"])}"'
    t = c.get('t')
    if t:
        attrs += f' t="{t}"'
    body = ''
    f = c.get('f')
    if f is not None:
        fa = ''
        if c.get('ft'):
            fa += f' t="{c["ft"]}"'
        if c.get('fref'):
            fa += f' ref="{c["fref"]}"'
        if c.get('si') is not None:
            fa += f' si="{int(c["si"])}"'
        body += f'<f{fa}>{escape(f)}</f>' if f != '' else f'<f{fa}/>'
    v = c.get('v')
    if t == 'inlineStr':
        if v is not None:
            body += '<is>' + _text_el('t', v) + '</is>'
    elif v is not None:
        if t == 's':
            if v not in sst:
                sst[v] = len(sst)
            v = str(sst[v])
        body += _text_el('v', v)
    return f'<c{attrs}>{body}</c>' if body else f'<c{attrs}/>'


def sheet_xml(sheet, sst):
    cells = list(sheet['cells'])
    if sheet.get('order') != 'given':
        cells.sort(key=lambda c: _rowcol(c['ref']))
    rows = []
    for c in cells:
        r = _rowcol(c['ref'])[0]
        if not rows or rows[-1][0] != r:
            rows.append((r, []))
        rows[-1][1].append(_cell_xml(c, sst))
    data = ''.join(f'<row r="{r}">' + ''.join(cs) + '</row>' for r, cs in rows)
    return HEAD + f'<worksheet xmlns="{NS_MAIN}" xmlns:r="{NS_REL}"><sheetData>{data}</sheetData></worksheet>'


def parts(wb):
    """name -> bytes of every part of the package"""
    sheets = wb['sheets']
    n = len(sheets)
    sst = {}
    out = {}
    for i, sh in enumerate(sheets, 1):
        out[f'xl/worksheets/sheet{i}.xml'] = sheet_xml(sh, sst)
    out['[Content_Types].xml'] = (
        HEAD + '<Types xmlns="http://schemas.openxmlformats.org/package/2006/content-types">'
        '<Default Extension="rels" ContentType="application/vnd.openxmlformats-package.relationships+xml"/>'
        '<Default Extension="xml" ContentType="application/xml"/>'
        '<Override PartName="/xl/workbook.xml" ContentType="application/vnd.openxmlformats-officedocument.spreadsheetml.sheet.main+xml"/>'
        + ''.join(f'<Override PartName="/xl/worksheets/sheet{i}.xml" ContentType="application/vnd.openxmlformats-officedocument.spreadsheetml.worksheet+xml"/>'
                  for i in range(1, n + 1))
        + '<Override PartName="/xl/styles.xml" ContentType="application/vnd.openxmlformats-officedocument.spreadsheetml.styles+xml"/>'
        '<Override PartName="/xl/sharedStrings.xml" ContentType="application/vnd.openxmlformats-officedocument.spreadsheetml.sharedStrings+xml"/>'
        '</Types>')
    out['_rels/.rels'] = (
        HEAD + f'<Relationships xmlns="{NS_PKG}">'
        '<Relationship Id="rId1" Type="http://schemas.openxmlformats.org/officeDocument/2006/relationships/officeDocument" Target="xl/workbook.xml"/>'
        '</Relationships>')
    names = wb.get('names') or []
    dn = ''
    if names:
        dn = '<definedNames>' + ''.join(
            f'<definedName name={quoteattr(d["name"])}' + (' hidden="1"' if d.get('hidden') else '')
            + (f' localSheetId="{d["local"]}"' if d.get('local') is not None else '')      # a name scoped to the sheet with that 0-based index
            + f'>{escape(d["ref"])}</definedName>' for d in names) + '</definedNames>'
    out['xl/workbook.xml'] = (
        HEAD + f'<workbook xmlns="{NS_MAIN}" xmlns:r="{NS_REL}"><sheets>'
        + ''.join(f'<sheet name={quoteattr(sh["name"])} sheetId="{i}" r:id="rId{i}"/>' for i, sh in enumerate(sheets, 1))
        + f'</sheets>{dn}</workbook>')
    out['xl/_rels/workbook.xml.rels'] = (
        HEAD + f'<Relationships xmlns="{NS_PKG}">'
        + ''.join(f'<Relationship Id="rId{i}" Type="http://schemas.openxmlformats.org/officeDocument/2006/relationships/worksheet" Target="worksheets/sheet{i}.xml"/>'
                  for i in range(1, n + 1))
        + f'<Relationship Id="rId{n + 1}" Type="http://schemas.openxmlformats.org/officeDocument/2006/relationships/styles" Target="styles.xml"/>'
        f'<Relationship Id="rId{n + 2}" Type="http://schemas.openxmlformats.org/officeDocument/2006/relationships/sharedStrings" Target="sharedStrings.xml"/>'
        '</Relationships>')
    out['xl/styles.xml'] = _STYLES
    items = sorted(sst.items(), key=lambda kv: kv[1])
    out['xl/sharedStrings.xml'] = (
        HEAD + f'<sst xmlns="{NS_MAIN}" count="{len(items)}" uniqueCount="{len(items)}">'
        + ''.join('<si>' + _text_el('t', s) + '</si>' for s, _ in items) + '</sst>')
    return {k: v.encode('utf-8') for k, v in out.items()}


def write_xlsx(path, wb):
    with zipfile.ZipFile(path, 'w', zipfile.ZIP_STORED) as z:
        for name, data in parts(wb).items():
            z.writestr(name, data)
    return path

"""Replay of function-call cases (spec -> code): each case {f, args} with the
expected abstract result from the TLC dump is executed on the real library
through two paths - a direct xl.FUNCTIONS call and a compiled formula - and
the projected result is compared with the expectation."""
import json

from . import xl
from .agree import agrees, klass
from .pool import parse_block, pmap


# the operators ^ and & are bound to POWER and CONCAT by the evaluator
DIRECT_ALIAS = {'OP_POW': 'POWER', 'OP_CONCAT': 'CONCAT'}


def direct_call(f, args, spelling='native'):
    L = xl.lib()
    try:
        fn = L.xl.FUNCTIONS[DIRECT_ALIAS.get(f, f)]
    except KeyError:
        return {'t': 'exc', 'cls': 'Unregistered', 'msg': f}
    try:
        pargs = [xl.from_abs(a, spelling if a['t'] != 'arr' else 'native') for a in args]
        return xl.to_abs(fn(*pargs))
    except BaseException as e:      # noqa
        if isinstance(e, (KeyboardInterrupt, SystemExit)):
            raise
        return xl.to_abs(e)


def formula_text(f, args, cells):
    parts = []
    for a in args:
        lit = xl.formula_literal(a, cells)
        parts.append(lit)
    if f.startswith('OP_'):
        sym = OPSYM[f]
        if f == 'OP_NEG':
            return '=-' + _paren(parts[0])
        if f == 'OP_PERCENT':
            return '=' + _paren(parts[0]) + '%'
        return '=' + _paren(parts[0]) + sym + _paren(parts[1])
    return '=' + f + '(' + ','.join(parts) + ')'


def _paren(s):
    return '(' + s + ')' if s.startswith('-') else s


OPSYM = {'OP_ADD': '+', 'OP_SUB': '-', 'OP_MUL': '*', 'OP_DIV': '/', 'OP_POW': '^', 'OP_CONCAT': '&',
         'OP_EQ': '=', 'OP_NE': '<>', 'OP_LT': '<', 'OP_GT': '>', 'OP_LE': '<=', 'OP_GE': '>=',
         'OP_NEG': '-', 'OP_PERCENT': '%'}


def formula_call(f, args):
    """Evaluate =F(args) in a compiled model; returns (abstract result, stored abstract value, text)."""
    cells = {}
    try:
        text = formula_text(f, args, cells)
    except xl.MachineryError:
        return None, None, None
    try:
        model, ev = xl.build_model(cells, {'Sheet1!Z1': text})
        res = ev.evaluate('Sheet1!Z1')
        stored = ev.get_cell_value('Sheet1!Z1')
        return xl.to_abs(res), xl.to_abs(stored), text
    except BaseException as e:      # noqa
        if isinstance(e, (KeyboardInterrupt, SystemExit)):
            raise
        return xl.to_abs(e), None, text


def default_features(case, exp, obs, path):
    return {'f': case['f'], 'path': path, 'arity': len(case['args']),
            'argtypes': [klass(a) for a in case['args']],
            'exp': klass(exp), 'obs': klass(obs)}


class Replayer:
    """Callable for pmap over dump blocks.  paths: subset of direct, wrapped, formula."""

    def __init__(self, paths=('direct', 'formula'), features=None, rel=1e-9, case_var='case', res_var='res',
                 formula_filter=None, nsamples=3):
        self.paths = paths
        self.features = features or default_features
        self.rel = rel
        self.case_var = case_var
        self.res_var = res_var
        self.formula_filter = formula_filter
        self.nsamples = nsamples

    def __call__(self, blocks):
        out = {'n': 0, 'calls': 0, 'open': 0, 'dis': [], 'samples': [], 'byf': {}}
        for b in blocks:
            st = parse_block(b) if isinstance(b, str) else b
            case, exp = st[self.case_var], st[self.res_var]
            out['n'] += 1
            out['byf'][case['f']] = out['byf'].get(case['f'], 0) + 1
            if exp['t'] == 'open':
                out['open'] += 1
                continue
            for path in self.paths:
                if path == 'formula':
                    if self.formula_filter and not self.formula_filter(case):
                        continue
                    obs, stored, text = formula_call(case['f'], case['args'])
                    if obs is None:
                        continue
                else:
                    obs = direct_call(case['f'], case['args'], 'native' if path == 'direct' else path)
                    text = None
                out['calls'] += 1
                ok = agrees(obs, exp, self.rel)
                if len(out['samples']) < self.nsamples and path == self.paths[-1]:
                    out['samples'].append({'case': case, 'expected': exp, 'observed': obs, 'path': path, 'formula': text})
                if ok is False:
                    out['dis'].append({'case': case, 'exp': exp, 'obs': obs, 'path': path, 'formula': text,
                                       'features': self.features(case, exp, obs, path)})
                elif path == 'formula' and stored is not None and agrees(stored, exp, self.rel) is False:
                    out['dis'].append({'case': case, 'exp': exp, 'obs': stored, 'path': 'formula-stored', 'formula': text,
                                       'features': self.features(case, exp, stored, 'formula-stored')})
        return out


def replay_dump(run, blocks, replayer, kind='call'):
    results = pmap(replayer, blocks)
    byf = {}
    for r in results:
        run.evaluations += r['calls']
        run.undetermined += r['open']
        run.traces += r['n'] - r['open']
        run.nontrivial_count += r['n'] - r['open']
        for k, v in r['byf'].items():
            byf[k] = byf.get(k, 0) + v
        for s in r['samples']:
            run.sample(s)
        for d in r['dis']:
            run.disagree(kind, d['case'], d['exp'], d['obs'], d['features'], clause=d['path'],
                         repro=repro_text(d))
    return byf


class _Ordered:
    """picklable: replay a list of blocks, in the given order, in the calling (fresh) process"""
    def __init__(self, replayer):
        self.replayer = replayer

    def __call__(self, item):
        name, blocks = item
        r = self.replayer(blocks)
        for d in r['dis']:
            d['features'] = dict(d['features'], order=name)
            d['case'] = dict(d['case'], order_in_one_process=name)
        return r


def replay_orders(run, blocks, replayer, key=None, sample=3000, kind='call'):
    """The same cases again in a few evaluation ORDERS, each order in ONE freshly forked process: state that a call
    leaves behind in the process (a memo keyed too coarsely, a registry, numpy error state) makes a LATER case go wrong.
    Orders: sorted by `key` ascending, descending, and two seeded shuffles.  Disagreements carry the order's name."""
    import random
    from .pool import pmap_fresh
    rng = random.Random(run.seed * 7907 + 3)
    blocks = list(blocks)
    if len(blocks) > sample:
        blocks = rng.sample(blocks, sample)
    orders = []
    if key is not None:
        asc = sorted(blocks, key=key)
        orders += [('ascending', asc), ('descending', asc[::-1])]
    for k in range(2):
        sh = list(blocks)
        rng.shuffle(sh)
        orders.append((f'shuffle-{k}', sh))
    n = 0
    for r in pmap_fresh(_Ordered(replayer), orders):
        run.evaluations += r['calls']
        n += r['calls']
        for d in r['dis'][:40]:
            run.disagree(kind, d['case'], d['exp'], d['obs'], d['features'], clause=d['path'], repro=repro_text(d))
    run.notes['ordered_process_evaluations'] = run.notes.get('ordered_process_evaluations', 0) + n
    return n


def repro_text(d):
    if d.get('formula'):
        return ("from xlcalculator import ModelCompiler, Evaluator\n"
                f"m = ModelCompiler().read_and_parse_dict({{'Sheet1!Z1': {d['formula']!r}}})\n"
                "print(Evaluator(m).evaluate('Sheet1!Z1'))")
    return f"# xl.FUNCTIONS[{d['case']['f']!r}](*args) with args = {json.dumps(d['case']['args'])}"


def replay_file(path):
    """--replay for call-style disagreements written by Run.finish()"""
    d = json.load(open(path))
    case = d['case']
    clause = d.get('clause')
    if clause in ('formula', 'formula-stored') or case.get('path') == 'formula':
        obs, stored, text = formula_call(case['f'], case['args'])
        if clause == 'formula-stored':
            obs = stored
    else:
        sp = clause if clause in ('wrapped', 'numpy', 'float', 'text', 'wtext', 'wfloat') else case.get('path', 'native')
        obs = direct_call(case['f'], case['args'], 'native' if sp == 'direct' else sp)
    ok = agrees(obs, d['expected'])
    print('case', json.dumps(case), '\nexpected', d['expected'], '\nobserved', obs)
    if ok is False:
        print(f"VIOLATION property={d['property']} replay={path}")
        return 1
    print('agrees now')
    return 0

"""Local-consistency recorder (code -> spec): while it is installed, every return of
Evaluator.evaluate() - the top-level call AND the nested ones the library issues for the
cells a formula refers to - is one event

    {ast, sheet, cells, names, res, addr, text}

ast    the formula of the evaluated cell, parsed by the harness's OWN parser (fparse), never
       by the parser under test
cells  the values the model stores, at the moment of the return, for the cells the formula
       mentions directly (single references, members of ranges, targets of defined names) -
       every one of them was evaluated (and written back) before the formula's own value was
       computed, or is a constant
res    the projected return value

Trace_Local (TLC) judges each event: Eval(ast) over exactly those cell values must agree with
res wherever the specification determines the value.  That is the invariant "the value of a
formula cell is the specification's function of the values of the cells it addresses", checked
at EVERY node of EVERY evaluation an execution performs - the repository's own tests, the
fixture workbooks, the drivers of the checks.

Only public attributes are read (Model.cells / defined_names, XLCell.value / formula / sheet,
XLFormula.formula); if they are gone the event is skipped (counted), never a verdict.
"""
import collections
import re

from . import fparse, syntax as S, xl

MAX_RANGE = 400
_ADDR = re.compile(r"^(?:(.*)!)?\$?([A-Za-z]{1,3})\$?([0-9]+)(?::\$?([A-Za-z]{1,3})\$?([0-9]+))?$")


def small(a, depth=0):
    """is the abstract value safe for TLC's JSON reader (ints < 2^31, no exotic kinds)"""
    t = a.get('t')
    if t == 'num':
        return abs(a['n']) < 2 ** 31 and a['d'] < 2 ** 31
    if t == 'txt':
        return len(a['v']) <= 400
    if t in ('bool', 'blank', 'err'):
        return True
    if t == 'date':
        return 0 <= a['s'] < 2 ** 31 and a['fd'] < 2 ** 31
    if t == 'arr':
        return depth == 0 and len(a['v']) <= 60 and all(len(r) <= 30 and all(small(x, 1) for x in r) for r in a['v'])
    return False


def _colnum(s):
    n = 0
    for ch in s.upper():
        n = n * 26 + ord(ch) - 64
    return n


def _target_ast(address):
    """address text of a defined name's target ('Sheet!A1', "'My Sheet'!A1:B2") -> ref / range AST, or None"""
    if not isinstance(address, str):
        return None
    m = _ADDR.match(address)
    if not m or not m.group(1):
        return None
    sheet = m.group(1)
    if sheet.startswith("'") and sheet.endswith("'"):
        sheet = sheet[1:-1].replace("''", "'")
    if m.group(4):
        return {'k': 'range', 'sheet': sheet, 'c1': _colnum(m.group(2)), 'r1': int(m.group(3)), 'a1': False, 'b1': False,
                'c2': _colnum(m.group(4)), 'r2': int(m.group(5)), 'a2': False, 'b2': False}
    return {'k': 'ref', 'sheet': sheet, 'col': _colnum(m.group(2)), 'row': int(m.group(3)), 'ac': False, 'ar': False}


class LocalRecorder:
    def __init__(self, sink=None, limit=200000, dedup=True):
        self.events = [] if sink is None else None
        self.sink = sink
        self.limit = limit
        self.count = 0
        self.skipped = collections.Counter()
        self._asts = {}
        self._seen = set() if dedup else None
        self._orig = None
        self.L = None

    # ------------------------------------------------------------ install
    def __enter__(self):
        self.L = L = xl.lib()
        self._orig = orig = L.Evaluator.evaluate
        rec = self

        def evaluate(ev, addr, *a, **kw):
            res = orig(ev, addr, *a, **kw)
            try:
                rec._record(ev, addr, res)
            except Exception as e:      # the recorder never disturbs the execution
                rec.skipped['recorder:' + type(e).__name__] += 1
            return res
        evaluate.__verif_wrapped__ = True
        L.Evaluator.evaluate = evaluate
        return self

    def __exit__(self, *exc):
        self.L.Evaluator.evaluate = self._orig
        return False

    # ------------------------------------------------------------- record
    def _parse(self, text):
        if text not in self._asts:
            try:
                self._asts[text] = fparse.parse(text)
            except fparse.Unsupported:
                self._asts[text] = None
            except RecursionError:
                self._asts[text] = None
        return self._asts[text]

    def _record(self, ev, addr, res):
        if self.count >= self.limit:
            return
        model = ev.model
        names_tbl = model.defined_names
        if addr in names_tbl and hasattr(names_tbl[addr], 'address') and isinstance(names_tbl[addr].address, str):
            addr = names_tbl[addr].address
        cell = model.cells.get(addr)
        if cell is None or cell.formula is None or cell.formula.evaluate is False:
            return
        text = cell.formula.formula
        ast = self._parse(text)
        if ast is None:
            self.skipped['formula-outside-subset'] += 1
            return
        sheet = cell.sheet
        try:
            refs, names = fparse.refs_of(ast, sheet)
        except fparse.Unsupported:
            self.skipped['large-range'] += 1
            return
        evnames = []
        for n in sorted(names):
            d = names_tbl.get(n)
            t = _target_ast(getattr(d, 'address', None)) if d is not None else None
            if t is None:
                self.skipped['name-without-plain-target'] += 1
                return
            evnames.append({'n': n, 'ast': t})
            try:
                r2, _ = fparse.refs_of(t, sheet)
            except fparse.Unsupported:
                self.skipped['large-range'] += 1
                return
            refs |= r2
        if len(refs) > MAX_RANGE:
            self.skipped['large-range'] += 1
            return
        cells = []
        for (sh, c, r) in sorted(refs):
            a = f'{sh}!{S.col_letters(c)}{r}'
            if a == addr:
                self.skipped['self-mention'] += 1
                return
            x = model.cells.get(a)
            if x is None:
                continue
            v = xl.to_abs(x.value)
            if not small(v):
                self.skipped['value-not-encodable'] += 1
                return
            cells.append({'sheet': sh, 'col': c, 'row': r, 'v': v})
        ares = xl.to_abs(res)
        if not small(ares):
            ares = {'t': 'other', 'of': ares.get('t')}
        e = {'ast': ast, 'sheet': sheet, 'cells': cells, 'names': evnames, 'res': ares, 'addr': addr, 'text': text[:200]}
        if self._seen is not None:
            import json
            key = hash(json.dumps([ast, sheet, cells, evnames, ares], sort_keys=True))
            if key in self._seen:
                self.skipped['duplicate'] += 1
                return
            self._seen.add(key)
        self.count += 1
        if self.sink is not None:
            self.sink(e)
        else:
            self.events.append(e)


def features(e, x, v):
    a = e['ast']
    return {'verdict': v, 'top': a.get('f') or a.get('op') or a['k']}


def validate(run, events, name='local', kind='local-consistency'):
    """TLC judges the events (Trace_Local); returns a Counter of verdicts."""
    from . import trace
    clean = [{k: e[k] for k in ('ast', 'sheet', 'cells', 'names', 'res')} | {'addr': e.get('addr', ''), 'text': e.get('text', '')} for e in events]
    res = trace.validate(run, clean, module='Trace_Local', name=name, kind=kind, features=features, batch=4000)
    return collections.Counter(v for _, v, _ in res)

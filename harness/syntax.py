"""Python mirror of XlSyntax rendering for seeded generators (code -> spec).
The trace specs re-render every logged tree with the TLA+ Render and reject a
mismatch as a generator error, so this module is not part of the oracle."""

PREC = {'^': 5, '*': 4, '/': 4, '+': 3, '-': 3, '&': 2}
BINOPS = ['^', '*', '/', '+', '-', '&', '=', '<>', '<', '>', '<=', '>=']


def prec(op):
    return PREC.get(op, 1)


def col_letters(c):
    s = ''
    while c > 0:
        r = (c - 1) % 26
        s = chr(65 + r) + s
        c = (c - 1 - r) // 26
    return s


def num(txt):
    return {'k': 'num', 'txt': [ord(c) for c in txt]}


def ref(col, row, sheet='', ac=False, ar=False):
    return {'k': 'ref', 'sheet': sheet, 'col': col, 'row': row, 'ac': ac, 'ar': ar}


def rng(c1, r1, c2, r2, sheet=''):
    return {'k': 'range', 'sheet': sheet, 'c1': c1, 'r1': r1, 'a1': False, 'b1': False,
            'c2': c2, 'r2': r2, 'a2': False, 'b2': False}


def bin_(op, l, r):
    return {'k': 'bin', 'op': op, 'l': l, 'r': r}


def neg(x):
    return {'k': 'neg', 'x': x}


def pct(x):
    return {'k': 'pct', 'x': x}


def paren(x):
    return {'k': 'paren', 'x': x}


def call(f, args, at=False):
    return {'k': 'call', 'f': f, 'at': at, 'args': list(args)}


def strlit(s):
    return {'k': 'str', 'v': [ord(c) for c in s]}


def needs_paren(c, op, side):
    return c['k'] == 'bin' and (prec(c['op']) < prec(op) or (prec(c['op']) == prec(op) and side == 'r'))


def min_paren(a):
    k = a['k']
    if k == 'bin':
        l, r = min_paren(a['l']), min_paren(a['r'])
        return bin_(a['op'], paren(l) if needs_paren(a['l'], a['op'], 'l') else l,
                    paren(r) if needs_paren(a['r'], a['op'], 'r') else r)
    if k == 'neg':
        x = min_paren(a['x'])
        return neg(paren(x) if a['x']['k'] == 'bin' else x)
    if k == 'pct':
        x = min_paren(a['x'])
        return pct(paren(x) if a['x']['k'] in ('bin', 'neg') else x)
    if k == 'paren':
        return paren(min_paren(a['x']))
    if k == 'call':
        return dict(a, args=[min_paren(x) for x in a['args']])
    return a


STYLE0 = {'lead': [], 'trail': [], 'opl': [], 'opr': [], 'po': [], 'pc': [], 'cb': [], 'ca': [], 'eq': True}


def _plain_sheet(s):
    return all(c.isascii() and (c.isalnum() or c == '_') for c in s) and not s[:1].isdigit()


def sheet_prefix(sh):
    if not sh:
        return ''
    return (sh if _plain_sheet(sh) else "'" + sh.replace("'", "''") + "'") + '!'


def cell_text(c, r, ac, ar):
    return ('$' if ac else '') + col_letters(c) + ('$' if ar else '') + str(r)


def render(a, st=STYLE0):
    g = lambda key: ''.join(map(chr, st[key]))
    k = a['k']
    if k == 'num':
        return ''.join(map(chr, a['txt']))
    if k == 'str':
        return '"' + ''.join(map(chr, a['v'])).replace('"', '""') + '"'
    if k == 'bool':
        return 'TRUE' if a['v'] else 'FALSE'
    if k == 'err':
        return a['v']
    if k == 'ref':
        return sheet_prefix(a['sheet']) + cell_text(a['col'], a['row'], a['ac'], a['ar'])
    if k == 'range':
        return (sheet_prefix(a['sheet']) + cell_text(a['c1'], a['r1'], a['a1'], a['b1']) + ':'
                + cell_text(a['c2'], a['r2'], a['a2'], a['b2']))
    if k == 'rows':
        return sheet_prefix(a['sheet']) + f"{a['r1']}:{a['r2']}"
    if k == 'name':
        return a['v']
    if k == 'call':
        sep = g('cb') + ',' + g('ca')
        return ('@' if a['at'] else '') + a['f'] + '(' + g('po') + sep.join(render(x, st) for x in a['args']) + g('pc') + ')'
    if k == 'bin':
        return render(a['l'], st) + g('opl') + a['op'] + g('opr') + render(a['r'], st)
    if k == 'neg':
        return '-' + render(a['x'], st)
    if k == 'pct':
        return render(a['x'], st) + '%'
    if k == 'paren':
        return '(' + g('po') + render(a['x'], st) + g('pc') + ')'
    raise ValueError(k)


def formula(a, st=STYLE0):
    g = lambda key: ''.join(map(chr, st[key]))
    return ('=' if st['eq'] else '') + g('lead') + render(a, st) + g('trail')

"""code -> spec: validate events recorded from the real library with TLC."""
import json
import os

from .agree import agrees
from .pool import dump_blocks, parse_block
from .xl import MachineryError


def validate(run, events, module='Trace_Calls', cfg=None, name='trace', timeout=900, batch=20000, kind='trace-call',
             features=None):
    """events: list of dicts (JSON-able, ints < 2^31).  Returns list of (event, verdict, expected)."""
    out = []
    cfg = cfg or module + '.cfg'
    for bi in range(0, len(events), batch):
        chunk = events[bi:bi + batch]
        path = os.path.join(run.work, f'{name}-{bi}.ndjson')
        with open(path, 'w') as fh:
            for e in chunk:
                fh.write(json.dumps(e, separators=(',', ':')) + '\n')
        r = run.tlc(module, cfg, dump=True, workers=1, timeout=timeout, env={'TRACE_FILE': path}, heap='3g',
                    name=f'{name}-{bi}')
        verdicts = {}
        for b in dump_blocks(r.dump):
            st = parse_block(b)
            verdicts[st['l']] = (st['verdict'], st.get('exp'))
        if len(verdicts) != len(chunk) + 1:
            raise MachineryError(f'{module}: {len(verdicts) - 1} verdicts for {len(chunk)} events')
        for i, e in enumerate(chunk, 1):
            v, x = verdicts[i]
            out.append((e, v, x))
        os.remove(path)
        os.remove(r.dump)
    n_ok = 0
    for e, v, x in out:
        run.traces += 1
        if v not in ('open', 'ok') and isinstance(x, dict) and x.get('t') in ('num', 'date') \
                and isinstance(e.get('res'), dict) and e['res'].get('t') in ('num', 'float', 'date') \
                and agrees(e['res'], x) is True:
            # TLC compares rationals exactly; an observed double is compared with the expected rational numerically
            # (the same tolerance as in the spec -> code direction), whatever fraction the projection chose for it
            v = 'ok'
        if v == 'open':
            run.undetermined += 1
        elif v == 'ok':
            n_ok += 1
        else:
            f = features(e, x, v) if features else {'f': e.get('f'), 'verdict': v}
            run.disagree(kind, {k: e[k] for k in e if k != 'res'}, x, e.get('res'), f, clause=v)
    run.nontrivial_count += n_ok
    return out

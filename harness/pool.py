"""Fork pool helpers: distribute dump blocks / case lists over worker processes."""
import multiprocessing as mp
import os
import re

from .tlaval import parse_value

NPROC = int(os.environ.get('VERIF_NPROC', '16'))
_STATE = re.compile(r'^State \d+:\s*$', re.M)
_VAR = re.compile(r'^/\\ (\w+) = ', re.M)


def dump_blocks(path, skip_substr=None):
    with open(path, encoding='utf-8') as fh:
        data = fh.read()
    blocks = [b for b in _STATE.split(data) if b.strip()]
    if skip_substr:
        blocks = [b for b in blocks if skip_substr not in b]
    return blocks


def iter_blocks(path, skip_substr=None):
    """the states of a TLC dump one after the other, without holding the file in memory"""
    cur = []
    with open(path, encoding='utf-8') as fh:
        for line in fh:
            if _STATE.match(line):
                if cur:
                    b = ''.join(cur)
                    if b.strip() and not (skip_substr and skip_substr in b):
                        yield b
                cur = []
            else:
                cur.append(line)
    if cur:
        b = ''.join(cur)
        if b.strip() and not (skip_substr and skip_substr in b):
            yield b


def sample_blocks(path, k, rng, skip_substr=None):
    """reservoir sample of k states of a dump (every state equally likely), streamed"""
    res, n = [], 0
    for b in iter_blocks(path, skip_substr):
        n += 1
        if len(res) < k:
            res.append(b)
        else:
            j = rng.randrange(n)
            if j < k:
                res[j] = b
    return res, n


def parse_block(block):
    parts = _VAR.split(block)
    return {parts[i]: parse_value(parts[i + 1]) for i in range(1, len(parts), 2)}


def chunked(seq, n):
    k = max(1, (len(seq) + n - 1) // n)
    return [seq[i:i + k] for i in range(0, len(seq), k)]


def pmap(func, items, nchunks=None, procs=None):
    """func(chunk) -> result, over chunks of items, in forked workers."""
    procs = procs or NPROC
    chunks = chunked(items, nchunks or procs * 4)
    if len(chunks) <= 1 or procs == 1:
        return [func(c) for c in chunks]
    ctx = mp.get_context('fork')
    with ctx.Pool(procs) as pool:
        return pool.map(func, chunks, chunksize=1)


def pmap_fresh(func, items):
    """func(item) -> result; every item in its own freshly forked process (no state shared between items)."""
    if not items:
        return []
    ctx = mp.get_context('fork')
    with ctx.Pool(min(NPROC, len(items)), maxtasksperchild=1) as pool:
        return pool.map(func, items, chunksize=1)

"""Run one case in a forked, resource-limited child (C06: evaluations that may not terminate)."""
import json
import os
import resource
import select
import signal
import time


def run_limited(fn, cpu_s=6, mem_bytes=3 * 1024 ** 3, wall_s=20):
    """fn() -> JSON-able dict, executed in a forked child.  Returns the dict, or
    {'outcome': 'timeout' | 'memlimit' | 'crash'}."""
    r, w = os.pipe()
    pid = os.fork()
    if pid == 0:
        try:
            os.close(r)
            resource.setrlimit(resource.RLIMIT_CPU, (cpu_s, cpu_s + 1))
            resource.setrlimit(resource.RLIMIT_AS, (mem_bytes, mem_bytes))
            try:
                out = fn()
            except MemoryError:
                out = {'outcome': 'memlimit'}
            os.write(w, json.dumps(out).encode())
        except BaseException:
            pass
        finally:
            os._exit(0)
    os.close(w)
    data = b''
    deadline = time.time() + wall_s
    while True:
        left = deadline - time.time()
        if left <= 0:
            os.kill(pid, signal.SIGKILL)
            break
        rl, _, _ = select.select([r], [], [], left)
        if not rl:
            continue
        chunk = os.read(r, 1 << 16)
        if not chunk:
            break
        data += chunk
    os.close(r)
    _, status = os.waitpid(pid, 0)
    if data:
        try:
            return json.loads(data.decode())
        except ValueError:
            pass
    if os.WIFSIGNALED(status):
        sig = os.WTERMSIG(status)
        if sig in (signal.SIGXCPU, signal.SIGKILL):
            return {'outcome': 'timeout'}
        return {'outcome': 'crash', 'signal': sig}
    return {'outcome': 'memlimit' if not data else 'crash'}


class _Timeout(BaseException):
    pass


def _on_alarm(signum, frame):
    raise _Timeout()


def run_timed(fn, wall_s=8, mem_bytes=4 * 1024 ** 3):
    """fn() in THIS process under a CPU-time alarm and an address-space limit.
    The evaluator is pure Python, so the alarm interrupts runaway recursion /
    loops; a MemoryError is caught.  (No fork: forking from pool workers that
    have numerical libraries loaded occasionally dead-locked the child.)

    The budget `wall_s` is CPU time of this process (ITIMER_PROF): on a loaded
    machine a trivial evaluation may wait many seconds for a core, which is no
    property of the code under test.  A wall-clock backstop (30 x the budget,
    at least 120 s) catches a blocked process; it is a failure of the machinery
    (MachineryError), never a verdict."""
    from .xl import MachineryError
    soft, hard = resource.getrlimit(resource.RLIMIT_AS)
    if soft == resource.RLIM_INFINITY or soft > mem_bytes:
        try:
            resource.setrlimit(resource.RLIMIT_AS, (mem_bytes, hard))
        except (ValueError, OSError):
            pass
    state = {'real': False}

    def on_real(signum, frame):
        state['real'] = True
        raise _Timeout()
    old_prof = signal.signal(signal.SIGPROF, _on_alarm)
    old_real = signal.signal(signal.SIGALRM, on_real)
    signal.setitimer(signal.ITIMER_PROF, wall_s)
    signal.setitimer(signal.ITIMER_REAL, max(120, 30 * wall_s))
    try:
        return fn()
    except _Timeout:
        if state['real']:
            raise MachineryError('an evaluation got no CPU time within the wall-clock backstop (machine overloaded or process blocked)')
        return {'outcome': 'timeout'}
    except MemoryError:
        return {'outcome': 'memlimit'}
    finally:
        signal.setitimer(signal.ITIMER_PROF, 0)
        signal.setitimer(signal.ITIMER_REAL, 0)
        signal.signal(signal.SIGPROF, old_prof)
        signal.signal(signal.SIGALRM, old_real)

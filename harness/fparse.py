"""An independent, small recursive-descent parser of the Excel formula subset the
specification models: text -> XlSyntax AST (the dict form used in traces).

Used by the Excel anchor (cached values of the fixture workbooks are compared
with the SPECIFICATION's evaluation of the formula, so the formula must reach
the specification without passing through the parser under test) and by the
differential parse check.  Anything outside the subset raises Unsupported.

Grammar (Excel's): comparison < & < + - < * / < ^ < unary minus < postfix %.
"""
import re

from . import syntax as S


class Unsupported(Exception):
    pass


_TOK = re.compile(r'''
    (?P<ws>[ \n]+)
  | (?P<num>(?:\d+\.?\d*|\.\d+)(?:[eE][+-]?\d+)?)
  | (?P<str>"(?:[^"]|"")*")
  | (?P<err>\#(?:NULL!|DIV/0!|VALUE!|REF!|NAME\?|NUM!|N/A))
  | (?P<ref>(?:(?:'(?:[^']|'')+'|[A-Za-z_][A-Za-z0-9_.]*)!)?\$?[A-Za-z]{1,3}\$?[0-9]+(?::\$?[A-Za-z]{1,3}\$?[0-9]+)?(?![A-Za-z0-9_(.]))
  | (?P<name>[A-Za-z_\\][A-Za-z0-9_.]*)
  | (?P<op><>|<=|>=|[-+*/^&=<>%(),@])
''', re.X)
_CELL = re.compile(r'^(\$?)([A-Za-z]{1,3})(\$?)([0-9]+)$')


def tokenize(text):
    pos, out = 0, []
    while pos < len(text):
        m = _TOK.match(text, pos)
        if not m:
            raise Unsupported(f'cannot tokenize at {text[pos:pos + 12]!r}')
        pos = m.end()
        kind = m.lastgroup
        if kind != 'ws':
            out.append((kind, m.group(kind)))
    return out


def _cell(t):
    m = _CELL.match(t)
    n = 0
    for ch in m.group(2).upper():
        n = n * 26 + ord(ch) - 64
    return n, int(m.group(4)), bool(m.group(1)), bool(m.group(3))


def _ref(text):
    sheet = ''
    if '!' in text:
        sheet, text = text.rsplit('!', 1)
        if sheet.startswith("'"):
            sheet = sheet[1:-1].replace("''", "'")
    if ':' in text:
        a, b = text.split(':')
        c1, r1, a1, b1 = _cell(a)
        c2, r2, a2, b2 = _cell(b)
        return {'k': 'range', 'sheet': sheet, 'c1': c1, 'r1': r1, 'a1': a1, 'b1': b1, 'c2': c2, 'r2': r2, 'a2': a2, 'b2': b2}
    c, r, ac, ar = _cell(text)
    return {'k': 'ref', 'sheet': sheet, 'col': c, 'row': r, 'ac': ac, 'ar': ar}


class _P:
    def __init__(self, toks):
        self.t, self.i = toks, 0

    def peek(self):
        return self.t[self.i] if self.i < len(self.t) else (None, None)

    def take(self, val=None):
        k, v = self.peek()
        if k is None or (val is not None and v != val):
            raise Unsupported(f'expected {val!r} at token {self.i}')
        self.i += 1
        return k, v

    def binary(self, ops, sub):
        left = sub()
        while self.peek()[0] == 'op' and self.peek()[1] in ops:
            op = self.take()[1]
            left = S.bin_(op, left, sub())
        return left

    def expr(self):
        return self.binary(('=', '<>', '<', '>', '<=', '>='), self.concat)

    def concat(self):
        return self.binary(('&',), self.add)

    def add(self):
        return self.binary(('+', '-'), self.mul)

    def mul(self):
        return self.binary(('*', '/'), self.pow)

    def pow(self):
        return self.binary(('^',), self.unary)

    def unary(self):
        k, v = self.peek()
        if k == 'op' and v == '-':
            self.take()
            return S.neg(self.unary())
        if k == 'op' and v == '+':
            self.take()
            return self.unary()
        return self.postfix()

    def postfix(self):
        x = self.primary()
        while self.peek() == ('op', '%'):
            self.take()
            if x['k'] == 'num' and not x['txt'] or x['k'] == 'num' and x['txt'][-1] != 37:
                x = {'k': 'num', 'txt': x['txt'] + [37]}
            else:
                x = S.pct(x)
        return x

    def primary(self):
        k, v = self.take()
        if k == 'num':
            return S.num(v)
        if k == 'str':
            return S.strlit(v[1:-1].replace('""', '"'))
        if k == 'err':
            return {'k': 'err', 'v': v}
        if k == 'ref':
            return _ref(v)
        at = False
        if k == 'op' and v == '@':
            at = True
            k, v = self.take()
        if k == 'name':
            if self.peek() == ('op', '('):
                self.take()
                args = []
                if self.peek() != ('op', ')'):
                    args.append(self.expr())
                    while self.peek() == ('op', ','):
                        self.take()
                        args.append(self.expr())
                self.take(')')
                return S.call(v, args, at)
            if v.upper() in ('TRUE', 'FALSE'):
                return {'k': 'bool', 'v': v.upper() == 'TRUE'}
            return {'k': 'name', 'v': v}
        if k == 'op' and v == '(':
            x = self.expr()
            self.take(')')
            return S.paren(x)
        raise Unsupported(f'unexpected {v!r}')


def parse(text):
    """'=...' or '...' -> AST"""
    t = text.strip(' \n')
    if t.startswith('='):
        t = t[1:]
    p = _P(tokenize(t))
    if not p.t:
        raise Unsupported('empty formula')
    ast = p.expr()
    if p.i != len(p.t):
        raise Unsupported(f'trailing tokens from {p.i}')
    return ast


def refs_of(a, sheet):
    """addresses (sheet, col, row) and names an AST mentions"""
    k = a['k']
    if k == 'ref':
        return {(a['sheet'] or sheet, a['col'], a['row'])}, set()
    if k == 'range':
        sh = a['sheet'] or sheet
        if (a['c2'] - a['c1'] + 1) * (a['r2'] - a['r1'] + 1) > 400:
            raise Unsupported('large range')
        return {(sh, c, r) for c in range(a['c1'], a['c2'] + 1) for r in range(a['r1'], a['r2'] + 1)}, set()
    if k == 'name':
        return set(), {a['v']}
    out, names = set(), set()
    for child in ([a.get('l'), a.get('r'), a.get('x')] + list(a.get('args') or [])):
        if isinstance(child, dict):
            o, n = refs_of(child, sheet)
            out |= o
            names |= n
    return out, names

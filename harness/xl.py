"""Binding to the library under test and the abstraction (projection) function.

This is the only module that looks at implementation types.  The library is
imported from $XLCALC_REPO (default /repo) - the current working tree - on
every run; nothing is cached between runs.
"""
import datetime
import importlib
import math
import os
import sys
from fractions import Fraction

REPO = os.environ.get('XLCALC_REPO', '/repo')

_lib = None


class Lib:
    pass


def lib():
    """Import xlcalculator from the working tree (once per process)."""
    global _lib
    if _lib is not None:
        return _lib
    if REPO not in sys.path:
        sys.path.insert(0, REPO)
    import logging
    logging.disable(logging.CRITICAL)
    import warnings
    warnings.filterwarnings('ignore')
    import xlcalculator
    where = os.path.realpath(os.path.dirname(xlcalculator.__file__))
    if not where.startswith(os.path.realpath(REPO)):
        raise MachineryError(f'xlcalculator imported from {where}, not {REPO}')
    L = Lib()
    L.pkg = xlcalculator
    L.xl = importlib.import_module('xlcalculator.xlfunctions.xl')
    L.xlerrors = importlib.import_module('xlcalculator.xlfunctions.xlerrors')
    L.ft = importlib.import_module('xlcalculator.xlfunctions.func_xltypes')
    L.utils = importlib.import_module('xlcalculator.utils')
    L.parser = importlib.import_module('xlcalculator.parser')
    L.tokenizer = importlib.import_module('xlcalculator.tokenizer')
    L.ast_nodes = importlib.import_module('xlcalculator.ast_nodes')
    L.xltypes = importlib.import_module('xlcalculator.xltypes')
    L.ModelCompiler = xlcalculator.ModelCompiler
    L.Model = xlcalculator.Model
    L.Evaluator = xlcalculator.Evaluator
    # whether `import xlcalculator` alone registers the engineering functions
    L.engineering_registered_by_package = 'DEC2BIN' in L.xl.FUNCTIONS
    try:
        importlib.import_module('xlcalculator.xlfunctions.engineering')
    except Exception:      # pragma: no cover
        pass
    _lib = L
    return L


class MachineryError(Exception):
    """The checking machinery itself failed (exit code 2)."""


# ---------------------------------------------------------------------------
# calendar (the harness's own, independent of the library): 1900 date system
# ---------------------------------------------------------------------------
_BASE = datetime.date(1899, 12, 30)


def ymd_to_serial(y, m, d):
    n = (datetime.date(y, m, d) - _BASE).days
    return n if n >= 61 else n - 1      # 1900-03-01 = 61, 1900-02-28 = 59, 1900-01-01 = 1


def serial_to_date(s):
    if s >= 61:
        return _BASE + datetime.timedelta(days=s)
    return _BASE + datetime.timedelta(days=s + 1)


# ---------------------------------------------------------------------------
# implementation value -> abstract value
# ---------------------------------------------------------------------------
def _num(x):
    try:
        import numpy
        if isinstance(x, numpy.generic):
            x = x.item()
    except ImportError:      # pragma: no cover
        pass
    if isinstance(x, bool):
        return {'t': 'bool', 'v': x}
    if isinstance(x, int):
        if abs(x) < 2 ** 31:
            return {'t': 'num', 'n': x, 'd': 1}
        return {'t': 'float', 'v': repr(x)}
    if isinstance(x, float):
        if math.isnan(x):
            return {'t': 'float', 'v': 'nan'}
        if math.isinf(x):
            return {'t': 'float', 'v': 'inf' if x > 0 else '-inf'}
        # a double that is (within 1e-12 relative) a rational n/d with 32-bit n and d is reported as that rational
        # (increasing bounds: the SIMPLEST such rational - the closest fraction below a large bound can be a long
        # approximant of the double's own rounding error instead of the short decimal the computation stands for)
        for bound in (10 ** 6, 10 ** 7, 10 ** 8, 10 ** 9, 2 * 10 ** 9):
            fr = Fraction(x).limit_denominator(bound)
            if abs(fr.numerator) < 2 ** 31 and abs(float(fr) - x) <= 1e-12 * abs(x):
                return {'t': 'num', 'n': fr.numerator, 'd': fr.denominator}
        return {'t': 'float', 'v': repr(x)}
    return None


def to_abs(v):
    """Project whatever the API returned to the value universe of the spec."""
    L = lib()
    if isinstance(v, L.xlerrors.ExcelError):
        return {'t': 'err', 'v': str(v.value)}
    if isinstance(v, BaseException):
        return {'t': 'exc', 'cls': type(v).__name__, 'msg': str(v)[:300]}
    if v is None or isinstance(v, L.ft.Blank):
        return {'t': 'blank'}
    if isinstance(v, L.ft.Array) or type(v).__name__ == 'DataFrame':
        return {'t': 'arr', 'v': [[to_abs(x) for x in row] for row in v.values.tolist()]}
    if isinstance(v, L.ft.ExcelType):
        inner = v.value
        if isinstance(v, L.ft.DateTime):
            return _date(inner)
        return to_abs(inner)
    n = _num(v)
    if n is not None:
        return n
    if isinstance(v, str):
        return {'t': 'txt', 'v': [ord(c) for c in v]}
    if isinstance(v, datetime.datetime):
        return _date(v)
    if isinstance(v, datetime.date):
        return _date(datetime.datetime(v.year, v.month, v.day))
    if isinstance(v, (list, tuple)):
        return {'t': 'arr', 'v': [[to_abs(x) for x in (row if isinstance(row, (list, tuple)) else [row])] for row in v]}
    try:
        import numpy
        if isinstance(v, numpy.datetime64):
            return _date(v.astype('M8[us]').astype(datetime.datetime))
    except Exception:      # pragma: no cover
        pass
    return {'t': 'other', 'cls': type(v).__name__, 'repr': repr(v)[:200]}


def _date(dt):
    try:
        s = ymd_to_serial(dt.year, dt.month, dt.day)
    except Exception:
        return {'t': 'other', 'cls': 'datetime', 'repr': repr(dt)}
    secs = dt.hour * 3600 + dt.minute * 60 + dt.second
    fr = Fraction(secs, 86400)
    if dt.microsecond:
        # the time of day exactly, where the fraction fits the specification's 32-bit rationals; otherwise the
        # microseconds ride along (compared exactly by checks that need it, ignored by the numeric comparison)
        ex = Fraction(secs * 10 ** 6 + dt.microsecond, 86400 * 10 ** 6)
        if ex.denominator < 2 ** 31:
            fr = ex
        else:
            return {'t': 'date', 's': s, 'fn': fr.numerator, 'fd': fr.denominator, 'us': dt.microsecond}
    return {'t': 'date', 's': s, 'fn': fr.numerator, 'fd': fr.denominator}


# ---------------------------------------------------------------------------
# abstract value -> a concrete spelling
# ---------------------------------------------------------------------------
def text_of(a):
    return ''.join(chr(c) for c in a['v'])


def from_abs(a, spelling='native'):
    """spellings: native | wrapped | numpy | float | text (numeric text)"""
    L = lib()
    t = a['t']
    if t == 'num':
        n, d = a['n'], a['d']
        if spelling == 'text':
            return str(n) if d == 1 else repr(n / d)
        if spelling == 'wtext':
            return L.ft.Text(str(n) if d == 1 else repr(n / d))
        if spelling == 'scitext':
            return ('%e' % (n / d))
        if spelling == 'float' or (d != 1 and spelling == 'native'):
            return n / d
        if spelling == 'numpy':
            import numpy
            return numpy.int64(n) if d == 1 else numpy.float64(n / d)
        if spelling == 'wrapped':
            return L.ft.Number(n if d == 1 else n / d)
        if spelling == 'wfloat':
            return L.ft.Number(n / d)
        return n if d == 1 else n / d
    if t == 'float':
        import re
        if re.fullmatch(r'-?\d+', a['v']):
            return int(a['v'])          # a whole number beyond TLC's integers travels as its decimal spelling
        return float(a['v'])
    if t == 'txt':
        s = text_of(a)
        return L.ft.Text(s) if spelling.startswith('w') else s
    if t == 'bool':
        return L.ft.Boolean(a['v']) if spelling.startswith('w') else a['v']
    if t == 'blank':
        return L.ft.BLANK if spelling.startswith('w') else None
    if t == 'err':
        cls = L.xlerrors.ERRORS_BY_CODE.get(a['v'])
        return cls() if cls else L.xlerrors.ExcelError(a['v'])
    if t == 'date':
        d = serial_to_date(a['s'])
        dt = datetime.datetime(d.year, d.month, d.day) + datetime.timedelta(
            seconds=float(Fraction(a['fn'], a['fd']) * 86400))
        return L.ft.DateTime(dt) if spelling.startswith('w') else dt
    if t == 'arr':
        rows = [[from_abs(x, 'wrapped' if x['t'] != 'err' else 'native') for x in row] for row in a['v']]
        return L.ft.Array(rows)
    raise MachineryError(f'cannot spell {a}')


# ---------------------------------------------------------------------------
# formula text for an abstract argument (the "formula" call path)
# ---------------------------------------------------------------------------
def fmt_rational(n, d):
    if d == 1:
        return str(n)
    k, p = 0, 1
    while p % d and k < 12:
        k += 1
        p *= 10
    if p % d:
        return None
    m = abs(n) * p // d
    s = str(m).rjust(k + 1, '0')
    return ('-' if n < 0 else '') + s[:-k] + '.' + s[-k:]


def formula_literal(a, cells, prefix='Sheet1!'):
    """Return formula text denoting `a`; values with no literal form are put
    into fresh input cells of `cells` (address -> python value)."""
    t = a['t']
    if t == 'num':
        lit = fmt_rational(a['n'], a['d'])
        if lit is not None and a.get('sci') and a['d'] > 1 and a['n'] != 0:
            # the way Excel itself stores small numbers in a file: 1E-05, 2.5E-03, -7.5E-04
            k = len(lit.split('.')[1])
            m = str(abs(a['n']) * 10 ** k // a['d']).rstrip('0') or '0'
            k -= len(str(abs(a['n']) * 10 ** k // a['d'])) - len(m)
            e = k - (len(m) - 1)
            if e > 0:
                return ('-' if a['n'] < 0 else '') + m[0] + ('.' + m[1:] if len(m) > 1 else '') + f'E-{e:02d}'
        if lit is not None:
            return lit if a['n'] >= 0 else lit    # unary minus literal
        return f"({a['n']}/{a['d']})"
    if t == 'txt':
        return '"' + text_of(a).replace('"', '""') + '"'
    if t == 'bool':
        return 'TRUE' if a['v'] else 'FALSE'
    if t == 'err':
        return a['v']
    col = 'ABCDEFGHIJKLMNOPQRSTUVWXY'
    if t == 'blank':
        addr = f'{col[len(cells) % 25]}{90 + len(cells)}'
        cells[prefix + addr] = ('blank',)
        return addr
    if t == 'date':
        addr = f'{col[len(cells) % 25]}{90 + len(cells)}'
        cells[prefix + addr] = ('value', from_abs(a, 'native'))
        return addr
    if t == 'arr':
        rows = a['v']
        r0 = 200 + 20 * len(cells)
        for i, row in enumerate(rows):
            for j, x in enumerate(row):
                addr = f'{col[j]}{r0 + i}'
                if x['t'] == 'blank':
                    cells[prefix + addr] = ('blank',)
                elif x['t'] == 'err':
                    cells[prefix + addr] = ('formula', '=' + x['v'])
                else:
                    cells[prefix + addr] = ('value', from_abs(x, 'native'))
        return f'{col[0]}{r0}:{col[len(rows[0]) - 1]}{r0 + len(rows) - 1}'
    raise MachineryError(f'no formula form for {a}')


def build_model(cells, formulas):
    """cells: addr -> ('value', v) | ('blank',) | ('formula', text);
    formulas: addr -> '=...'.  Returns (model, evaluator)."""
    L = lib()
    d = {}
    late = {}
    for addr, spec in cells.items():
        if spec[0] == 'blank':
            continue
        if spec[0] == 'formula':
            d[addr] = spec[1]
        else:
            v = spec[1]
            if isinstance(v, (int, float)) and not isinstance(v, bool):
                d[addr] = v
            elif isinstance(v, str) and v != '' and v[0] != '=':
                d[addr] = v
            else:
                d[addr] = 0
                late[addr] = v
    d.update(formulas)
    model = L.ModelCompiler().read_and_parse_dict(d)
    ev = L.Evaluator(model)
    for addr, v in late.items():
        ev.set_cell_value(addr, v)
    return model, ev

"""Helpers shared by the stateful checks (C04, C05, C12, C13): build a real
model from an abstract workbook (cells with constants / formula ASTs, names)."""
import os

from . import syntax as S, xl, xlsxwriter_min


def addr(key):
    sh, c, r = key
    return f'{sh}!{S.col_letters(c)}{r}'


def cell_items(cells):
    """TLA function (dict or list of pairs) -> list of (key tuple, content)"""
    items = cells.items() if isinstance(cells, dict) else cells
    return [(tuple(k), v) for k, v in items]


def to_python_cells(cells):
    out = {}
    for key, content in cell_items(cells):
        if content['c'] == 'const' and content['v'].get('t') == 'blank':
            continue          # a cell the workbook never stored (it comes into being when a value is set)
        if content['c'] == 'const':
            out[addr(key)] = xl.from_abs(content['v'], 'native')
        else:
            out[addr(key)] = S.formula(S.min_paren(content['ast']))
    return out


def name_items(names):
    items = names.items() if isinstance(names, dict) else names
    return [(k, v) for k, v in items]


def name_ref_text(a):
    """$-absolute, sheet-qualified reference text as stored in a workbook's definedNames"""
    return S.render(a)


_PRISTINE = {}


def build_model(pycells, names=(), via='dict', work=None, build_code=True):
    """pycells: address -> python constant | '=formula'.  names: [(name, ref text)]."""
    L = xl.lib()
    if via == 'xlsx':
        sheets = {}
        late_x = {}
        for a, v in pycells.items():
            sh, ref = a.rsplit('!', 1)
            if isinstance(v, str) and v.startswith('='):
                cell = {'ref': ref, 't': None, 'v': None, 'f': v[1:]}
            elif isinstance(v, bool):
                cell = {'ref': ref, 't': 'b', 'v': '1' if v else '0'}
            elif isinstance(v, (int, float)):
                cell = {'ref': ref, 't': 'n', 'v': repr(v)}
            elif isinstance(v, str):
                cell = {'ref': ref, 't': 'inlineStr', 'v': v}
            else:
                cell = {'ref': ref, 't': 'n', 'v': '0'}
                late_x[a] = v
            sheets.setdefault(sh, []).append(cell)
        path = os.path.join(work, f'wb-{os.getpid()}-{id(pycells)}.xlsx')
        xlsxwriter_min.write_xlsx(path, {'sheets': [{'name': s, 'cells': c} for s, c in sheets.items()],
                                         'names': [{'name': n, 'ref': r} for n, r in names]})
        try:
            model = L.ModelCompiler().read_and_parse_archive(path, build_code=build_code)
        finally:
            os.remove(path)
        for a, v in late_x.items():
            model.set_cell_value(a, v)
        return model
    comp = L.ModelCompiler()
    # read_and_parse_dict takes numbers and non-empty text; other constants (dates, empty text, None) are set afterwards
    late = {a: v for a, v in pycells.items()
            if not isinstance(v, (int, float)) and not (isinstance(v, str) and v != '')}
    if late:
        pycells = {a: (0 if a in late else v) for a, v in pycells.items()}
    if not names:
        model = comp.read_and_parse_dict(dict(pycells), build_code=build_code)
        for a, v in late.items():
            model.set_cell_value(a, v)
        return model
    # models with defined names are loaded from an .xlsx written by the harness (the only public way to bind names);
    # the pristine model is cached per process and every caller gets its own deep copy
    import copy
    import json
    key = json.dumps([sorted((a, repr(v)) for a, v in pycells.items()), sorted(names), build_code], default=str)
    if key not in _PRISTINE:
        scratch = work or os.path.join(os.path.dirname(os.path.dirname(os.path.abspath(__file__))), '.work')
        os.makedirs(scratch, exist_ok=True)
        _PRISTINE[key] = build_model(pycells, names, via='xlsx', work=scratch, build_code=build_code)
    model = copy.deepcopy(_PRISTINE[key])
    for a, v in late.items():
        model.set_cell_value(a, v)
    return model

"""Helpers shared by the stateful checks (C04, C05, C12, C13): build a real
model from an abstract workbook (cells with constants / formula ASTs, names)."""
import os

from . import syntax as S, xl, xlsxwriter_min


def addr(key):
    sh, c, r = key
    return f'{sh}!{S.col_letters(c)}{r}'


def cell_items(cells):
    """TLA function (dict or list of pairs) -> list of (key tuple, content)"""
    items = cells.items() if isinstance(cells, dict) else cells
    return [(tuple(k), v) for k, v in items]


def to_python_cells(cells):
    out = {}
    for key, content in cell_items(cells):
        if content['c'] == 'const':
            out[addr(key)] = xl.from_abs(content['v'], 'native')
        else:
            out[addr(key)] = S.formula(S.min_paren(content['ast']))
    return out


def name_items(names):
    items = names.items() if isinstance(names, dict) else names
    return [(k, v) for k, v in items]


def name_ref_text(a):
    """$-absolute, sheet-qualified reference text as stored in a workbook's definedNames"""
    return S.render(a)


def build_model(pycells, names=(), via='dict', work=None):
    """pycells: address -> python constant | '=formula'.  names: [(name, ref text)]."""
    L = xl.lib()
    if via == 'xlsx':
        sheets = {}
        for a, v in pycells.items():
            sh, ref = a.rsplit('!', 1)
            if isinstance(v, str) and v.startswith('='):
                cell = {'ref': ref, 't': None, 'v': None, 'f': v[1:]}
            elif isinstance(v, bool):
                cell = {'ref': ref, 't': 'b', 'v': '1' if v else '0'}
            elif isinstance(v, (int, float)):
                cell = {'ref': ref, 't': 'n', 'v': repr(v)}
            else:
                cell = {'ref': ref, 't': 'inlineStr', 'v': str(v)}
            sheets.setdefault(sh, []).append(cell)
        path = os.path.join(work, f'wb-{os.getpid()}-{id(pycells)}.xlsx')
        xlsxwriter_min.write_xlsx(path, {'sheets': [{'name': s, 'cells': c} for s, c in sheets.items()],
                                         'names': [{'name': n, 'ref': r} for n, r in names]})
        try:
            return L.ModelCompiler().read_and_parse_archive(path)
        finally:
            os.remove(path)
    comp = L.ModelCompiler()
    # read_and_parse_dict takes numbers and non-empty text; other constants (dates, empty text, None) are set afterwards
    late = {a: v for a, v in pycells.items()
            if not isinstance(v, (int, float)) and not (isinstance(v, str) and v != '')}
    if late:
        pycells = {a: (0 if a in late else v) for a, v in pycells.items()}
    if not names:
        model = comp.read_and_parse_dict(dict(pycells))
        for a, v in late.items():
            model.set_cell_value(a, v)
        return model
    # the same steps parse_archive() performs after reading the cells
    model = comp.read_and_parse_dict(dict(pycells), build_code=False)
    comp.defined_names = {n: r.replace("'", '') if "''" not in r else r for n, r in names}
    comp.build_defined_names()
    comp.link_cells_to_defined_names()
    comp.build_ranges()
    model.build_code()
    for a, v in late.items():
        model.set_cell_value(a, v)
    return model

"""TLA+ value text -> Python (via JSON).  Handles the subset TLC prints for our
states: integers, strings, TRUE/FALSE, tuples <<..>>, records [a |-> v, ..],
sets {..} (as lists), and functions (k :> v @@ ..) (as dicts with string keys).
"""
import json
import re

_TOK = re.compile(r'"(?:[^"\\]|\\.)*"|<<|>>|\|->|:>|@@|[\[\]{}(),]|-?\d+|[A-Za-z_][A-Za-z_0-9]*|\s+')


def tla_to_json_text(text, pairs=False):
    """pairs=True: a function (k :> v @@ ...) becomes a list of [k, v] pairs (needed when keys are tuples)"""
    out = []
    for m in _TOK.finditer(text):
        tok = m.group(0)
        c = tok[0]
        if c == '"':
            out.append(tok)
        elif tok == '<<' or tok == '{':
            out.append('[')
        elif tok == '>>' or tok == '}':
            out.append(']')
        elif tok == '[':
            out.append('{')
        elif tok == ']':
            out.append('}')
        elif tok == '(':
            out.append('[[' if pairs else '{')
        elif tok == ')':
            out.append(']]' if pairs else '}')
        elif tok == '|->':
            out.append(':')
        elif tok == ':>':
            out.append(',' if pairs else ':')
        elif tok == '@@':
            out.append('],[' if pairs else ',')
        elif tok == ',':
            out.append(',')
        elif c.isspace():
            continue
        elif tok == 'TRUE':
            out.append('true')
        elif tok == 'FALSE':
            out.append('false')
        elif c.isdigit() or c == '-':
            out.append(tok)
        else:
            out.append('"' + tok + '"')      # record field name / model value
    return ''.join(out)


_KEYFIX = re.compile(r'([{,])(-?\d+):')


def parse_value(text):
    j = tla_to_json_text(text)
    try:
        return json.loads(j)
    except json.JSONDecodeError:
        pass
    try:
        # function with integer keys: quote them
        return json.loads(_KEYFIX.sub(r'\1"\2":', j))
    except json.JSONDecodeError:
        # function with tuple keys: every function of this value as a list of [key, value] pairs
        return json.loads(tla_to_json_text(text, pairs=True))


_STATE = re.compile(r'^State \d+:\s*$', re.M)
_VAR = re.compile(r'^/\\ (\w+) = ', re.M)


def iter_dump(path, only=None):
    """Yield one dict var -> value per state of a TLC -dump file."""
    with open(path, encoding='utf-8') as fh:
        data = fh.read()
    for block in _STATE.split(data):
        if not block.strip():
            continue
        parts = _VAR.split(block)
        st = {}
        for i in range(1, len(parts), 2):
            name = parts[i]
            if only is not None and name not in only:
                continue
            st[name] = parse_value(parts[i + 1])
        yield st

import argparse
import importlib
import json
import os
import sys
import traceback

from . import core
from .xl import MachineryError


def main():
    ap = argparse.ArgumentParser()
    ap.add_argument('prop')
    ap.add_argument('--tier', default=os.environ.get('VERIF_TIER', 'quick'), choices=['quick', 'thorough'])
    ap.add_argument('--replay', default=None)
    ap.add_argument('--seed', type=int, default=int(os.environ.get('VERIF_SEED', '0') or 0))
    a = ap.parse_args()
    name = a.prop.lower()
    try:
        mod = importlib.import_module(f'checks.{name}')
    except ModuleNotFoundError:
        print(f'unknown check {a.prop}', file=sys.stderr)
        return 2
    try:
        if a.replay:
            return mod.replay(a.replay)
        run = core.Run(a.prop.upper(), a.tier, a.seed, getattr(mod, 'BUG_MODELS', {}))
        mod.run(run)
        return run.finish()
    except MachineryError as e:
        print(f'MACHINERY-FAILURE {a.prop}: {e}', file=sys.stderr)
        return 2
    except Exception:
        traceback.print_exc()
        print(f'MACHINERY-FAILURE {a.prop}: unexpected exception', file=sys.stderr)
        return 2


if __name__ == '__main__':
    sys.exit(main())

"""Agreement of an observed abstract value with an expected one (DESIGN 4.3)."""
import re
from fractions import Fraction



def _as_num(a):
    """num / date -> Fraction, float -> python float, else None"""
    t = a['t']
    if t == 'num':
        return Fraction(a['n'], a['d'])
    if t == 'date':
        return Fraction(a['s']) + Fraction(a['fn'], a['fd'])
    if t == 'float':
        try:
            return float(a['v'])
        except ValueError:
            return None
    return None


def num_close(obs, exp, rel=1e-9, abs_tol=1e-12):
    if obs is None or exp is None:
        return False
    if isinstance(obs, Fraction) and isinstance(exp, Fraction) and obs == exp:
        return True
    o, e = float(obs), float(exp)
    if o != o or o in (float('inf'), float('-inf')):
        return False
    return abs(o - e) <= rel * abs(e) + abs_tol


def agrees(obs, exp, rel=1e-9):
    """True / False, or None when the expected result is left open."""
    te = exp['t']
    if te == 'open':
        return None
    to = obs['t']
    if te == 'anyerr':
        return to == 'err'
    if te == 'noexc':      # a value or an Excel error value - never a Python exception, NaN or infinity
        return to in ('num', 'txt', 'bool', 'blank', 'date', 'err', 'arr') or (to == 'float' and obs['v'] not in ('nan', 'inf', '-inf'))
    if te == 'err':
        return to == 'err' and obs['v'] == exp['v']
    if te in ('num', 'date'):
        if to not in ('num', 'date', 'float'):
            return False
        return num_close(_as_num(obs), _as_num(exp), rel)
    if te == 'txt':
        if to != 'txt':
            return False
        return obs['v'] == exp['v']
    if te == 'bool':
        return to == 'bool' and obs['v'] == exp['v']
    if te == 'blank':
        return to == 'blank' or (to == 'txt' and obs['v'] == [])
    if te == 'arr':
        if to != 'arr' or len(obs['v']) != len(exp['v']):
            return False
        for ro, re_ in zip(obs['v'], exp['v']):
            if len(ro) != len(re_):
                return False
            for a, b in zip(ro, re_):
                r = agrees(a, b, rel)
                if r is False:
                    return False
        return True
    return obs == exp


def klass(a):
    """coarse class of an abstract value, for finding signatures"""
    t = a['t']
    if t == 'err':
        return 'err:' + a['v']
    if t == 'exc':
        return 'exc:' + a['cls']
    if t == 'float':
        return 'float:' + (a['v'] if a['v'] in ('nan', 'inf', '-inf') else 'value')
    return t
